package main

import (
	"fmt"
	"math/rand"
	"net/http"
	"net/http/httptest"
	"os"
	"path/filepath"
	"regexp"
	"sort"
	"strings"
	"sync"
	"time"

	"github.com/taskctl/taskctl/pkg/verifhooks"
)

func init() { props["C16"] = runC16 }

var formats = []string{"yaml", "json", "toml"}

func nativeType(v interface{}) string { return fmt.Sprintf("%T", v) }

// load through the real parsers; returns the decoded definition as JSON, the native types seen for the
// probe entries, or an error class
func loadDecoded(path string) (def string, probes map[string]string, err error) {
	defer func() {
		if p := recover(); p != nil {
			err = fmt.Errorf("PANIC: %v", p)
		}
	}()
	cl := verifhooks.NewConfigLoader(verifhooks.NewConfig())
	cl.VerifSetDirs(filepath.Dir(path), filepath.Join(filepath.Dir(path), "nohome"))
	raw, e := cl.VerifLoadRaw(path)
	if e != nil {
		return "", nil, e
	}
	probes = map[string]string{}
	if p, ok := raw["variables"]; ok {
		probes["map"] = nativeType(p)
	}
	if ts, ok := raw["tasks"]; ok {
		probes["tasks"] = nativeType(ts)
	}
	if ps, ok := raw["pipelines"]; ok {
		switch m := ps.(type) {
		case map[string]interface{}:
			for _, v := range m {
				probes["stagelist"] = nativeType(v)
				break
			}
		case map[interface{}]interface{}:
			for _, v := range m {
				probes["stagelist"] = nativeType(v)
				break
			}
		}
	}
	if pr, ok := raw["verif_probe"]; ok {
		switch m := pr.(type) {
		case map[string]interface{}:
			for k, v := range m {
				probes["probe."+k] = nativeType(v)
			}
		case map[interface{}]interface{}:
			for k, v := range m {
				probes["probe."+fmt.Sprint(k)] = nativeType(v)
			}
		}
		delete(raw, "verif_probe")
	}
	def, e = cl.VerifDecodeJSON(raw)
	return def, probes, e
}

func fmtCase(col *Collector, cfg map[string]interface{}, tasks, pipes []string, tag string, runIt bool) {
	dir := newScratchDir("c16")
	defer os.RemoveAll(dir)
	defs := map[string]string{}
	errs := map[string]string{}
	outs := map[string]string{}
	withProbe := cloneTree(cfg).(map[string]interface{})
	withProbe["verif_probe"] = map[string]interface{}{"number": 3, "flag": true, "text": "x", "list": []interface{}{"a"}, "dict": map[string]interface{}{"k": "v"}}
	cs := Case{Tags: []string{tag}, NonTrivial: true}
	var nativeLines []string
	for _, f := range formats {
		text, err := serialise(cfg, f)
		if err != nil {
			cs.Tags = append(cs.Tags, "not-expressible-"+f)
			col.Add(cs)
			return
		}
		sub := filepath.Join(dir, f)
		os.MkdirAll(sub, 0755)
		path := filepath.Join(sub, "cfg."+f)
		os.WriteFile(path, []byte(text), 0644)
		ptext, _ := serialise(withProbe, f)
		ppath := filepath.Join(sub, "probe."+f)
		os.WriteFile(ppath, []byte(ptext), 0644)
		_, probes, _ := loadDecoded(ppath)
		var ks []string
		for k := range probes {
			ks = append(ks, k)
		}
		sort.Strings(ks)
		for _, k := range ks {
			nativeLines = append(nativeLines, fmt.Sprintf("%s.%s=%s", f, k, strings.ReplaceAll(probes[k], " ", "")))
		}
		d, _, e := loadDecoded(path)
		if e != nil {
			errs[f] = e.Error()
		}
		defs[f] = d
		// the commands of the binary
		var sb strings.Builder
		r := runTaskctl(sub, nil, 15*time.Second, "-c", path, "list")
		fmt.Fprintf(&sb, "list exit=%d\n%s\n", r.exit, r.stdout)
		for _, t := range tasks {
			r := runTaskctl(sub, nil, 15*time.Second, "-c", path, "show", t)
			fmt.Fprintf(&sb, "show %s exit=%d\n%s\n", t, r.exit, r.stdout)
		}
		for _, p := range pipes {
			r := runTaskctl(sub, nil, 15*time.Second, "-c", path, "graph", p)
			fmt.Fprintf(&sb, "graph %s exit=%d\n%s\n", p, r.exit, canonDot(r.stdout))
		}
		if runIt {
			for _, t := range tasks {
				// not quiet: the task's own output is part of the comparison (commands of one task run one at a time)
				r := runTaskctl(sub, nil, 20*time.Second, "-c", path, "--output", "raw", t)
				fmt.Fprintf(&sb, "run %s exit=%d\n%s\n", t, r.exit, r.stdout)
			}
			for _, p := range pipes {
				r := runTaskctl(sub, nil, 30*time.Second, "-c", path, "--output", "raw", "-q", p)
				fmt.Fprintf(&sb, "runp %s exit=%d\n", p, r.exit)
			}
		}
		outs[f] = sb.String()
	}
	ytext, _ := serialise(cfg, "yaml")
	cs.Replay = "formats: " + clipStr(strings.ReplaceAll(ytext, "\n", "\\n"), 900)
	cs.Line = "native"
	cs.Impl = strings.Join(nativeLines, ";")
	for _, f := range formats[1:] {
		switch {
		case (errs["yaml"] == "") != (errs[f] == ""):
			cs.Fail, cs.Sig = fmt.Sprintf("the same content loads from yaml (%q) but not identically from %s (%q)", errs["yaml"], f, errs[f]), "c16-load-differs"
		case defs["yaml"] != defs[f]:
			cs.Fail, cs.Sig = fmt.Sprintf("decoded definitions differ between yaml and %s: %s", f, firstDiff(defs["yaml"], defs[f])), "c16-definition-differs"
		case outs["yaml"] != outs[f]:
			cs.Fail, cs.Sig = fmt.Sprintf("list/show/graph/run results differ between yaml and %s: %s", f, firstDiff(outs["yaml"], outs[f])), "c16-behaviour-differs"
		}
		if cs.Fail != "" {
			break
		}
	}
	col.Add(cs)
}

func firstDiff(a, b string) string {
	n := len(a)
	if len(b) < n {
		n = len(b)
	}
	i := 0
	for i < n && a[i] == b[i] {
		i++
	}
	lo := i - 40
	if lo < 0 {
		lo = 0
	}
	ha, hb := i+60, i+60
	if ha > len(a) {
		ha = len(a)
	}
	if hb > len(b) {
		hb = len(b)
	}
	return fmt.Sprintf("…%q vs …%q", a[lo:ha], b[lo:hb])
}

// the same content split over two files in different formats: the importing file and the imported one
func crossImportCase(col *Collector, rng *rand.Rand, fa, fb string, emptyMain, viaDir, varsOnly bool) {
	dir := newScratchDir("c16x")
	defer os.RemoveAll(dir)
	a := map[string]interface{}{
		"import":    []interface{}{"other." + fb},
		"tasks":     map[string]interface{}{"ta": map[string]interface{}{"command": []interface{}{"echo a"}}},
		"pipelines": map[string]interface{}{"pa": []interface{}{map[string]interface{}{"task": "ta"}}},
	}
	b := map[string]interface{}{
		"tasks":     map[string]interface{}{"tb": map[string]interface{}{"command": []interface{}{"echo b"}, "env": map[string]interface{}{"K": "v"}}},
		"pipelines": map[string]interface{}{"pb": []interface{}{map[string]interface{}{"task": "tb"}}},
		"variables": map[string]interface{}{"FromB": "yes"},
	}
	want := []string{"- pa", "- pb", "- ta", "- tb"}
	if emptyMain {
		// the importing file declares its sections but leaves them empty
		a["tasks"], a["pipelines"] = map[string]interface{}{}, map[string]interface{}{}
		want = []string{"- pb", "- tb"}
	}
	if varsOnly {
		// the importing file holds nothing but variables (its only mapping) and the import
		delete(a, "tasks")
		delete(a, "pipelines")
		a["variables"] = map[string]interface{}{"FromA": "yes", "Shared": "a"}
		want = []string{"- pb", "- tb"}
	}
	otherPath := filepath.Join(dir, "other."+fb)
	if viaDir {
		// the other file is reached through a directory import (only *.yaml files are read from a directory)
		os.MkdirAll(filepath.Join(dir, "parts"), 0755)
		a["import"] = []interface{}{"parts"}
		otherPath = filepath.Join(dir, "parts", "other."+fb)
	}
	ta, _ := serialise(a, fa)
	tb, _ := serialise(b, fb)
	os.WriteFile(filepath.Join(dir, "main."+fa), []byte(ta), 0644)
	os.WriteFile(otherPath, []byte(tb), 0644)
	def, _, err := loadDecoded(filepath.Join(dir, "main."+fa))
	cs := Case{Tags: []string{"cross-import", fmt.Sprintf("emptyMain=%v", emptyMain), fmt.Sprintf("viaDir=%v", viaDir), fmt.Sprintf("varsOnly=%v", varsOnly)}, NonTrivial: true,
		Replay: fmt.Sprintf("main.%s imports other.%s emptyMain=%v viaDir=%v: %s", fa, fb, emptyMain, viaDir, strings.ReplaceAll(ta, "\n", "\\n"))}
	r := runTaskctl(dir, nil, 15*time.Second, "-c", filepath.Join(dir, "main."+fa), "list")
	switch {
	case err != nil:
		cs.Fail, cs.Sig = fmt.Sprintf("a %s file importing a %s file does not load: %v", fa, fb, err), "c16-cross-import"
	case r.exit != 0:
		cs.Fail, cs.Sig = fmt.Sprintf("list failed: %s", lastLines(r.stderr, 1)), "c16-cross-import"
	default:
		for _, w := range want {
			if !strings.Contains(r.stdout, w) {
				cs.Fail, cs.Sig = fmt.Sprintf("definition %q is missing after the import (%s <- %s)", w, fa, fb), "c16-cross-import"
			}
		}
	}
	cs.Impl = clipStr(def, 100)
	col.Add(cs)
}

// both files define the SAME pipeline and the same task with variations (lists of mappings, which the merge of an
// import appends): every pair of formats must give what the all-YAML pair gives
func sharedListsCrossImportCases(col *Collector) {
	ref := ""
	for _, fa := range formats {
		for _, fb := range formats {
			dir := newScratchDir("c16s")
			a := map[string]interface{}{
				"import": []interface{}{"other." + fb},
				"tasks": map[string]interface{}{
					"ta": map[string]interface{}{"command": []interface{}{"echo a"}},
					"tv": map[string]interface{}{"command": []interface{}{"echo v $V"}, "variations": []interface{}{map[string]interface{}{"V": "main"}}},
				},
				"pipelines": map[string]interface{}{"ps": []interface{}{map[string]interface{}{"task": "ta"}}},
			}
			b := map[string]interface{}{
				"tasks": map[string]interface{}{
					"tb": map[string]interface{}{"command": []interface{}{"echo b"}},
					"tv": map[string]interface{}{"variations": []interface{}{map[string]interface{}{"V": "other"}}},
				},
				"pipelines": map[string]interface{}{"ps": []interface{}{map[string]interface{}{"task": "tb"}}},
			}
			ta, _ := serialise(a, fa)
			tb, _ := serialise(b, fb)
			os.WriteFile(filepath.Join(dir, "main."+fa), []byte(ta), 0644)
			os.WriteFile(filepath.Join(dir, "other."+fb), []byte(tb), 0644)
			cs := Case{Tags: []string{"cross-import", "shared-lists"}, NonTrivial: true,
				Replay: fmt.Sprintf("main.%s and other.%s (imported) both define pipeline ps and the variations of task tv: %s <- %s", fa, fb, strings.ReplaceAll(ta, "\n", "\\n"), strings.ReplaceAll(tb, "\n", "\\n"))}
			cfgArg := filepath.Join(dir, "main."+fa)
			g := runTaskctl(dir, nil, 15*time.Second, "-c", cfgArg, "graph", "ps")
			r := runTaskctl(dir, nil, 15*time.Second, "-c", cfgArg, "--output", "raw", "-q", "--summary=false", "tv")
			obs := fmt.Sprintf("graph exit=%d %s | run tv exit=%d %s", g.exit, canonDot(g.stdout), r.exit, strings.Join(strings.Fields(r.stdout), " "))
			if g.exit != 0 {
				obs += " | " + lastLines(g.stderr, 1)
			}
			cs.Impl = clipStr(obs, 300)
			if ref == "" {
				ref = obs
				if g.exit != 0 || r.exit != 0 {
					cs.Fail, cs.Sig = "the all-YAML configuration does not load or run: "+obs, "c16-cross-import"
				}
			} else if obs != ref {
				cs.Fail, cs.Sig = fmt.Sprintf("main.%s importing other.%s gives [%s], the same content in YAML gives [%s]", fa, fb, clipStr(obs, 300), clipStr(ref, 300)), "c16-cross-import"
			}
			col.Add(cs)
			os.RemoveAll(dir)
		}
	}
}

// the same configuration fetched over HTTP in the three formats - plain URL, with a query string, with a fragment,
// as the main configuration and as an import: the same definitions load
func urlFormatsCases(col *Collector) {
	cfg := map[string]interface{}{
		"tasks":     map[string]interface{}{"alpha": map[string]interface{}{"command": []interface{}{"echo alpha"}}, "beta": map[string]interface{}{"command": []interface{}{"echo beta"}}},
		"pipelines": map[string]interface{}{"pp": []interface{}{map[string]interface{}{"task": "alpha"}}},
	}
	docs := map[string]string{}
	for _, f := range formats {
		docs[f], _ = serialise(cfg, f)
	}
	srv := httptest.NewServer(http.HandlerFunc(func(w http.ResponseWriter, r *http.Request) {
		for _, f := range formats {
			if r.URL.Path == "/cfg/tasks."+f {
				if f == "json" {
					w.Header().Set("Content-Type", "application/json")
				} else {
					w.Header().Set("Content-Type", "text/plain; charset=utf-8")
				}
				w.Write([]byte(docs[f]))
				return
			}
		}
		http.NotFound(w, r)
	}))
	defer srv.Close()
	for _, suffix := range []string{"", "?ref=main", "?a=1&b=x.y", "#top"} {
		for _, asImport := range []bool{false, true} {
			ref := ""
			for _, f := range formats {
				dir := newScratchDir("c16u")
				u := srv.URL + "/cfg/tasks." + f + suffix
				target := u
				if asImport {
					os.WriteFile(filepath.Join(dir, "main.yaml"), []byte(fmt.Sprintf("import: [%q]\ntasks:\n  local: {command: [\"true\"]}\n", u)), 0644)
					target = filepath.Join(dir, "main.yaml")
				}
				r := runTaskctl(dir, nil, 15*time.Second, "-c", target, "list", "tasks")
				names := strings.Fields(r.stdout)
				sort.Strings(names)
				obs := fmt.Sprintf("exit=%d tasks=%s", r.exit, strings.Join(names, ","))
				if r.exit != 0 {
					obs += " " + lastLines(r.stderr, 1)
				}
				cs := Case{Tags: []string{"url-config", "suffix=" + suffix}, NonTrivial: true, Impl: clipStr(obs, 200),
					Replay: fmt.Sprintf("configuration served over HTTP as tasks.%s%s (as an import: %v)", f, suffix, asImport)}
				if ref == "" {
					ref = obs
					want := "exit=0 tasks=alpha,beta"
					if asImport {
						want = "exit=0 tasks=alpha,beta,local"
					}
					if obs != want {
						cs.Fail, cs.Sig = "the YAML document gives ["+clipStr(obs, 200)+"], expected "+want, "c16-cross-import"
					}
				} else if obs != ref {
					cs.Fail, cs.Sig = fmt.Sprintf("the %s document gives [%s], the YAML document gives [%s]", f, clipStr(obs, 200), clipStr(ref, 200)), "c16-cross-import"
				}
				col.Add(cs)
				os.RemoveAll(dir)
			}
		}
	}
}

// the root file lives in the directory it imports (`import: ["."]`) next to YAML files sorted before and after it:
// whatever its format, the same definitions load
func rootInImportedDirCases(col *Collector) {
	for _, rootName := range []string{"m", "a0", "zz"} {
		ref := ""
		for _, f := range formats {
			dir := newScratchDir("c16r")
			os.WriteFile(filepath.Join(dir, "b.yaml"), []byte("tasks:\n  alpha: {command: [\"echo alpha\"]}\n"), 0644)
			os.WriteFile(filepath.Join(dir, "y.yaml"), []byte("tasks:\n  zeta: {command: [\"echo zeta\"]}\n"), 0644)
			root := map[string]interface{}{"import": []interface{}{"."}, "tasks": map[string]interface{}{"main": map[string]interface{}{"command": []interface{}{"echo main"}}}}
			text, _ := serialise(root, f)
			os.WriteFile(filepath.Join(dir, rootName+"."+f), []byte(text), 0644)
			r := runTaskctl(dir, nil, 15*time.Second, "-c", filepath.Join(dir, rootName+"."+f), "list", "tasks")
			names := strings.Fields(r.stdout) // `list tasks` prints them in no particular order
			sort.Strings(names)
			obs := fmt.Sprintf("exit=%d tasks=%s", r.exit, strings.Join(names, ","))
			cs := Case{Tags: []string{"cross-import", "root-in-imported-dir"}, NonTrivial: true, Impl: obs,
				Replay: fmt.Sprintf("%s.%s with import [\".\"] in a directory holding b.yaml (task alpha) and y.yaml (task zeta)", rootName, f)}
			if ref == "" {
				ref = obs
				if obs != "exit=0 tasks=alpha,main,zeta" {
					cs.Fail, cs.Sig = "the YAML root gives ["+obs+"], expected the three tasks", "c16-cross-import"
				}
			} else if obs != ref {
				cs.Fail, cs.Sig = fmt.Sprintf("root in %s gives [%s], the YAML root gives [%s]", f, obs, ref), "c16-cross-import"
			}
			col.Add(cs)
			os.RemoveAll(dir)
		}
	}
}

// the kinds of the nodes of a raw document, children of a mapping in the order of their keys
func kindTree(v interface{}) string {
	switch x := v.(type) {
	case map[string]interface{}:
		ks := make([]string, 0, len(x))
		for k := range x {
			ks = append(ks, k)
		}
		sort.Strings(ks)
		var b strings.Builder
		for _, k := range ks {
			b.WriteString(kindTree(x[k]))
		}
		return "S(" + b.String() + ")"
	case map[interface{}]interface{}:
		ks := make([]string, 0, len(x))
		byKey := map[string]interface{}{}
		for k, e := range x {
			ks = append(ks, fmt.Sprint(k))
			byKey[fmt.Sprint(k)] = e
		}
		sort.Strings(ks)
		var b strings.Builder
		for _, k := range ks {
			b.WriteString(kindTree(byKey[k]))
		}
		return "I(" + b.String() + ")"
	case []interface{}:
		var b strings.Builder
		for _, e := range x {
			b.WriteString(kindTree(e))
		}
		return "A(" + b.String() + ")"
	case []map[string]interface{}:
		var b strings.Builder
		for _, e := range x {
			b.WriteString(kindTree(e))
		}
		return "M(" + b.String() + ")"
	}
	return "L"
}

func topLevelKinds(doc map[string]interface{}) string {
	ks := make([]string, 0, len(doc))
	for k := range doc {
		ks = append(ks, k)
	}
	sort.Strings(ks)
	var b strings.Builder
	for _, k := range ks {
		b.WriteString(kindTree(doc[k]))
	}
	if b.Len() == 0 {
		return "-"
	}
	return b.String()
}

// what the real parsers return for generated configurations, two at a time, through the real normalisation
// (`unifyMapKinds`), against Model/Normalise.lean
func unifyModelCases(col *Collector, rng *rand.Rand, n int) {
	for i := 0; i < n; i++ {
		fa, fb := formats[rng.Intn(3)], formats[rng.Intn(3)]
		ca, _, _ := genAbstractConfig(rng)
		cb, _, _ := genAbstractConfig(rng)
		switch i % 5 {
		case 1: // a document with nothing but variables and a list
			ca = map[string]interface{}{"variables": map[string]interface{}{"A": "1"}, "import": []interface{}{"x"}}
		case 2: // no mapping at all among the top-level values
			ca = map[string]interface{}{"import": []interface{}{"x", "y"}, "debug": true}
		case 3:
			cb = map[string]interface{}{"output": "raw"}
		}
		ta, ea := serialise(ca, fa)
		tb, eb := serialise(cb, fb)
		cs := Case{Tags: []string{"normalise-model", fa + "+" + fb}, NonTrivial: true}
		cs.Replay = fmt.Sprintf("unifyMapKinds on a %s and a %s document: %s | %s", fa, fb, clipStr(strings.ReplaceAll(ta, "\n", "\\n"), 300), clipStr(strings.ReplaceAll(tb, "\n", "\\n"), 300))
		if ea != nil || eb != nil {
			continue
		}
		func() {
			defer func() {
				if p := recover(); p != nil {
					cs.Fail, cs.Sig = fmt.Sprint("normalisation panicked: ", p), "c16-cross-import"
				}
			}()
			cl := verifhooks.NewConfigLoader(verifhooks.NewConfig())
			da, err1 := cl.VerifParse([]byte(ta), "."+fa)
			db, err2 := cl.VerifParse([]byte(tb), "."+fb)
			if err1 != nil || err2 != nil {
				cs.Fail, cs.Sig = fmt.Sprintf("generated document does not parse: %v %v", err1, err2), "c16-setup"
				return
			}
			cs.Line = fmt.Sprintf("unify a=%s b=%s", topLevelKinds(da), topLevelKinds(db))
			verifhooks.UnifyMapKinds(da, db)
			ka, kb := topLevelKinds(da), topLevelKinds(db)
			if ka == "-" {
				ka = ""
			}
			if kb == "-" {
				kb = ""
			}
			cs.Impl = fmt.Sprintf("a=%s b=%s", ka, kb)
		}()
		col.Add(cs)
	}
}

func runC16(col *Collector, tier string, seed int64) {
	loaderReuseCases(col, "C16", []string{"yaml", "json", "toml"}, []string{"missing", "unparsable"})
	rng := rand.New(rand.NewSource(seed))
	col.res.Rule = "abstract configurations from the grammar of every documented key (string-or-list fields in both forms, durations, booleans, nested maps, watchers, contexts) serialised with yaml.v2 / encoding/json / go-toml; " +
		"the real loader's native types (probe), the decoded definition (JSON dump) and the binary's list / show / graph / run outputs compared pairwise; integers and booleans where strings are expected; imports across formats. " +
		"non-trivial = all; distinct = distinct abstract configurations"
	n := 12
	if tier == "thorough" {
		n = 150
	}
	type job struct {
		cfg   map[string]interface{}
		tasks []string
		pipes []string
		tag   string
		run   bool
	}
	var jobs []job
	for i := 0; i < n; i++ {
		cfg, tasks, pipes := genAbstractConfig(rng)
		// make the commands runnable and deterministic
		jobs = append(jobs, job{cfg, tasks, pipes, "grammar", i%3 == 0})
		// weak typing: a number / a boolean where the schema wants a string
		w := cloneTree(cfg).(map[string]interface{})
		t0 := w["tasks"].(map[string]interface{})[tasks[0]].(map[string]interface{})
		t0["description"] = 7
		t0["env"] = map[string]interface{}{"NUM": 12, "FLAG": true, "TXT": "t"}
		t0["variables"] = map[string]interface{}{"Suffix": 5}
		t0["timeout"] = 2000000000
		// numbers and booleans as top-level variables, substituted into a command that is run
		w["variables"] = map[string]interface{}{"GlobalVar": "gv", "Big": 1048576, "Small": 7, "Neg": -3, "Flag": true, "Huge": 123456789012}
		t0["command"] = []interface{}{"echo weak {{.Big}} {{.Small}} {{.Neg}} {{.Flag}} {{.Huge}} {{.Suffix}} $NUM $FLAG"}
		delete(t0, "condition")
		jobs = append(jobs, job{w, tasks, pipes, "weak-typing", i%2 == 0})
	}
	// strings that mean something to one of the three syntaxes: a value ending in a backslash, // and /* */ and #
	// inside commands, URLs and glob patterns, quotes of both kinds, = and [ ] - early and late in the document
	hazards := map[string]interface{}{
		"tasks": map[string]interface{}{
			"a1": map[string]interface{}{"command": []interface{}{"echo one"}, "env": map[string]interface{}{"WINPATH": "C:\\dir\\"}, "description": "ends with a backslash \\"},
			"b2": map[string]interface{}{"command": []interface{}{"echo http://example.com//x '# not a comment'", "echo 'src/**/*.go' '/* not a comment */' \"[x]=y\""}, "description": "has // and /* */ and # and \" and '"},
			"c3": map[string]interface{}{"command": []interface{}{"echo {{ .Glob }} {{ .Url }}"}, "variables": map[string]interface{}{"Glob": "src/**/*.go", "Url": "https://h/p?q=1#frag", "Tail": "x\\"}},
		},
		"pipelines": map[string]interface{}{"p": []interface{}{map[string]interface{}{"task": "a1"}, map[string]interface{}{"task": "b2", "depends_on": []interface{}{"a1"}}, map[string]interface{}{"task": "c3", "depends_on": []interface{}{"b2"}}}},
		"watchers":  map[string]interface{}{"w": map[string]interface{}{"task": "c3", "watch": []interface{}{"src/**/*.go", "//odd/*/path"}}},
		"variables": map[string]interface{}{"Trailing": "ends\\", "Comment": "a // b /* c */ # d"},
	}
	jobs = append(jobs, job{hazards, []string{"a1", "b2", "c3"}, []string{"p"}, "string-hazards", true})
	parallel(len(jobs), 8, func(i int) { fmtCase(col, jobs[i].cfg, jobs[i].tasks, jobs[i].pipes, jobs[i].tag, jobs[i].run) })
	for _, fa := range formats {
		for _, f1 := range formats {
			for _, f2 := range formats {
				for _, f3 := range formats {
					tripleImportCase(col, fa, f1, f2, f3)
				}
			}
		}
	}
	sharedListsCrossImportCases(col)
	unifyModelCases(col, rng, map[bool]int{false: 60, true: 600}[tier == "thorough"])
	rootInImportedDirCases(col)
	urlFormatsCases(col)
	for _, fa := range formats {
		for _, fb := range formats {
			crossImportCase(col, rng, fa, fb, false, false, false)
			crossImportCase(col, rng, fa, fb, true, false, false)
			crossImportCase(col, rng, fa, fb, false, false, true)
			if fb == "yaml" {
				crossImportCase(col, rng, fa, fb, false, true, false)
				crossImportCase(col, rng, fa, fb, true, true, false)
				crossImportCase(col, rng, fa, fb, false, true, true)
			}
			for _, fc := range formats {
				multiImportCase(col, fa, fb, fc, false)
				multiImportCase(col, fa, fb, fc, true)
			}
		}
	}
}

var dotNode = regexp.MustCompile(`\b(n[0-9]+)\[label="([^"]*)"\]`)
var dotCluster = regexp.MustCompile(`cluster_s[0-9]+`)
var dotID = regexp.MustCompile(`\bn[0-9]+\b`)

// node identifiers of the DOT output depend on map iteration order: replace them by their labels, sort lines
func canonDot(out string) string {
	labels := map[string]string{}
	for _, m := range dotNode.FindAllStringSubmatch(out, -1) {
		labels[m[1]] = m[2]
	}
	out = dotID.ReplaceAllStringFunc(out, func(id string) string {
		if l, ok := labels[id]; ok {
			return "<" + l + ">"
		}
		return id
	})
	out = dotCluster.ReplaceAllString(out, "cluster")
	lines := strings.Split(out, "\n")
	for i := range lines {
		lines[i] = strings.TrimSpace(lines[i])
	}
	sort.Strings(lines)
	var uniq []string
	for i, l := range lines {
		if i == 0 || l != lines[i-1] {
			uniq = append(uniq, l)
		}
	}
	return strings.Join(uniq, "\n")
}

// a main file importing two files: one brings a section the main file lacks, the other a section it has
func multiImportCase(col *Collector, fa, fb, fc string, swap bool) {
	dir := newScratchDir("c16m")
	defer os.RemoveAll(dir)
	first, second := "ctx."+fb, "more."+fc
	if swap {
		first, second = second, first
	}
	main := map[string]interface{}{
		"import": []interface{}{first, second},
		"tasks":  map[string]interface{}{"tmain": map[string]interface{}{"command": []interface{}{"echo main"}}},
	}
	ctx := map[string]interface{}{
		"contexts":  map[string]interface{}{"cx": map[string]interface{}{"env": map[string]interface{}{"K": "v"}}},
		"variables": map[string]interface{}{"FromCtxFile": "yes"},
	}
	more := map[string]interface{}{
		"tasks":    map[string]interface{}{"tmore": map[string]interface{}{"command": []interface{}{"echo more"}, "context": "cx"}},
		"contexts": map[string]interface{}{"cy": map[string]interface{}{"env": map[string]interface{}{"L": "w"}}},
	}
	tm, _ := serialise(main, fa)
	t1, _ := serialise(ctx, fb)
	t2, _ := serialise(more, fc)
	os.WriteFile(filepath.Join(dir, "main."+fa), []byte(tm), 0644)
	os.WriteFile(filepath.Join(dir, "ctx."+fb), []byte(t1), 0644)
	os.WriteFile(filepath.Join(dir, "more."+fc), []byte(t2), 0644)
	cs := Case{Tags: []string{"multi-import"}, NonTrivial: true, Replay: fmt.Sprintf("main.%s imports [%s, %s]", fa, first, second)}
	r := runTaskctl(dir, nil, 15*time.Second, "-c", filepath.Join(dir, "main."+fa), "list")
	switch {
	case r.panicked || r.timedOut || (r.exit != 0 && r.exit != 1):
		cs.Fail, cs.Sig = fmt.Sprintf("loading crashed: %s", clipStr(firstPanicLine(r.stderr), 200)), "c16-cross-import"
	case r.exit != 0:
		cs.Fail, cs.Sig = fmt.Sprintf("the same content loads from one format but not from main.%s importing %s and %s: %s", fa, first, second, lastLines(r.stderr, 1)), "c16-cross-import"
	default:
		for _, w := range []string{"- cx", "- cy", "- tmain", "- tmore"} {
			if !strings.Contains(r.stdout, w) {
				cs.Fail, cs.Sig = fmt.Sprintf("definition %q is missing (main.%s importing %s and %s)", w, fa, first, second), "c16-cross-import"
			}
		}
	}
	cs.Impl = fmt.Sprintf("exit=%d", r.exit)
	col.Add(cs)
}

// a main file importing three files, the second and the third of which define the SAME task (the third extends what the
// second says): whatever the four formats, the same definitions load as from four YAML files
var tripleRef [2]struct {
	once sync.Once
	out  string
}

// variant 0: the later imports define one task and nothing else (no section the main file lacks); 1: two tasks with
// lists and mappings of every kind, and a contexts section
func tripleImportRun(fa, f1, f2, f3 string, variant int) (string, cliResult) {
	dir := newScratchDir("c16t")
	defer os.RemoveAll(dir)
	docs := []map[string]interface{}{
		{"import": []interface{}{"one." + f1, "two." + f2, "three." + f3}, "tasks": map[string]interface{}{"tmain": map[string]interface{}{"command": []interface{}{"echo main"}}}},
		{"tasks": map[string]interface{}{"t1": map[string]interface{}{"command": []interface{}{"echo one"}}}, "variables": map[string]interface{}{"From1": "yes"}},
		{"tasks": map[string]interface{}{
			"shared":  map[string]interface{}{"command": []interface{}{"echo shared $A $B $V"}, "env": map[string]interface{}{"A": "from-two"}, "variations": []interface{}{map[string]interface{}{"V": "v1"}}},
			"shared2": map[string]interface{}{"command": []interface{}{"echo shared2 $C $D {{ .X }} {{ .Y }}"}, "env": map[string]interface{}{"C": "c-two"}, "variables": map[string]interface{}{"X": "x-two", "Y": "y-two"}},
		}, "contexts": map[string]interface{}{"cx": map[string]interface{}{"env": map[string]interface{}{"K": "k-two"}}}},
		{"tasks": map[string]interface{}{
			"shared":  map[string]interface{}{"env": map[string]interface{}{"B": "from-three"}, "description": "extended by the third import", "variations": []interface{}{map[string]interface{}{"V": "v2"}}},
			"shared2": map[string]interface{}{"env": map[string]interface{}{"D": "d-three"}, "variables": map[string]interface{}{"Y": "y-three"}, "context": "cx"},
		}, "contexts": map[string]interface{}{"cx": map[string]interface{}{"env": map[string]interface{}{"L": "l-three"}}}},
	}
	if variant == 0 {
		docs[2] = map[string]interface{}{"tasks": map[string]interface{}{"shared": map[string]interface{}{"command": []interface{}{"echo shared $A $B"}, "env": map[string]interface{}{"A": "from-two"}}}}
		docs[3] = map[string]interface{}{"tasks": map[string]interface{}{"shared": map[string]interface{}{"env": map[string]interface{}{"B": "from-three"}, "description": "extended by the third import"}}}
	}
	for i, name := range []string{"main." + fa, "one." + f1, "two." + f2, "three." + f3} {
		text, _ := serialise(docs[i], strings.TrimPrefix(filepath.Ext(name), "."))
		os.WriteFile(filepath.Join(dir, name), []byte(text), 0644)
	}
	cfgPath := filepath.Join(dir, "main."+fa)
	r := runTaskctl(dir, nil, 15*time.Second, "-c", cfgPath, "list")
	out := fmt.Sprintf("list exit=%d\n%s\n", r.exit, r.stdout)
	if r.exit == 0 {
		for _, tn := range []string{"shared", "shared2"}[:1+variant] {
			r2 := runTaskctl(dir, nil, 15*time.Second, "-c", cfgPath, "show", tn)
			r3 := runTaskctl(dir, nil, 15*time.Second, "-c", cfgPath, "--output", "raw", "-q", tn)
			out += fmt.Sprintf("show %s exit=%d\n%s\nrun exit=%d\n%s\n", tn, r2.exit, r2.stdout, r3.exit, r3.stdout)
		}
	}
	return out, r
}

func tripleImportCase(col *Collector, fa, f1, f2, f3 string) {
	for variant := 0; variant < 2; variant++ {
		tripleImportCase1(col, fa, f1, f2, f3, variant)
	}
}

func tripleImportCase1(col *Collector, fa, f1, f2, f3 string, variant int) {
	ref := &tripleRef[variant]
	ref.once.Do(func() { ref.out, _ = tripleImportRun("yaml", "yaml", "yaml", "yaml", variant) })
	out, r := tripleImportRun(fa, f1, f2, f3, variant)
	cs := Case{Tags: []string{"triple-import"}, NonTrivial: true, Replay: fmt.Sprintf("main.%s imports [one.%s, two.%s, three.%s]; two and three define the same task%s", fa, f1, f2, f3, map[int]string{0: "", 1: "s (two of them, with lists and mappings of every kind) and a context"}[variant])}
	cs.Impl = fmt.Sprintf("exit=%d", r.exit)
	switch {
	case r.panicked || r.timedOut || (r.exit != 0 && r.exit != 1):
		cs.Fail, cs.Sig = fmt.Sprintf("loading crashed: %s", clipStr(firstPanicLine(r.stderr), 200)), "c16-cross-import"
	case out != ref.out:
		cs.Fail, cs.Sig = fmt.Sprintf("list / show / run differ from what the four YAML files give: %s %s", firstDiff(ref.out, out), lastLines(r.stderr, 1)), "c16-cross-import"
	}
	col.Add(cs)
}
