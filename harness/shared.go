package main

import (
	"fmt"
	"math/rand"
	"sort"
	"strings"
	"sync"
	"time"

	"github.com/taskctl/taskctl/pkg/scheduler"
	"github.com/taskctl/taskctl/pkg/task"
)

// One pipeline P included by SEVERAL stages of an outer pipeline - the same graph object, as internal/config
// builds it (Model/SchedMulti.lean: several loops over one graph). Generated: P (1-3 stages, any DAG, failing /
// allowed stages), the outer pipeline (2-3 including stages plus task stages, any DAG, conditions, allow_failure),
// the order in which tasks finish - so that later includers start while P is still running, or long after it
// finished (successfully or not) - and, for C03, a cancellation in the middle.
//
// Reference: the final statuses, error flag and run counts are those of the Lean model's composition (`nested`
// oracle family: an including stage succeeds iff P's run recorded no error; P's own result does not depend on who
// includes it). The ordering monitors (C01) are evaluated here, on every task entry.

type sharedSpec struct {
	m      int // stages of P
	pdeps  [][]int
	pok    []bool
	pallow []bool
	n      int // stages of the outer pipeline
	incl   []bool
	deps   [][]int
	ok     []bool
	allow  []bool
	cond   []byte // 'n' none, 't' true, 'f' false
	seed   int64
	cancel int // cancel after this many releases (-1: never)
}

func (s sharedSpec) describe() string {
	d := func(ds [][]int) string {
		p := make([]string, len(ds))
		for i, x := range ds {
			p[i] = "-"
			if len(x) > 0 {
				p[i] = joinInts(x, ",")
			}
		}
		return strings.Join(p, ";")
	}
	return fmt.Sprintf("shared inclusion: P{n=%d deps=%s ok=%s allow=%s} outer{n=%d includers=%s deps=%s ok=%s allow=%s cond=%s} order-seed=%d cancelAfter=%d",
		s.m, d(s.pdeps), bits(s.pok), bits(s.pallow), s.n, bits(s.incl), d(s.deps), bits(s.ok), bits(s.allow), string(s.cond), s.seed, s.cancel)
}

func (s sharedSpec) oracleLine() string {
	d := func(ds [][]int) string {
		p := make([]string, len(ds))
		for i, x := range ds {
			p[i] = "-"
			if len(x) > 0 {
				p[i] = joinInts(x, ",")
			}
		}
		return strings.Join(p, ";")
	}
	line := fmt.Sprintf("nested n=%d deps=%s allow=%s cond=%s ok=%s", s.n, d(s.deps), bits(s.allow), string(s.cond), bits(s.ok))
	pc := strings.Repeat("n", s.m)
	for i := 0; i < s.n; i++ {
		if s.incl[i] {
			line += fmt.Sprintf(" in=%d:%d:%s:%s:%s:%s", i, s.m, d(s.pdeps), bits(s.pallow), pc, bits(s.pok))
		}
	}
	return line
}

func genSharedSpec(rng *rand.Rand) sharedSpec {
	dag := func(n int, dens float64) [][]int {
		deps := make([][]int, n)
		for j := 0; j < n; j++ {
			for i := 0; i < j; i++ {
				if rng.Float64() < dens {
					deps[j] = append(deps[j], i)
				}
			}
			rng.Shuffle(len(deps[j]), func(a, b int) { deps[j][a], deps[j][b] = deps[j][b], deps[j][a] })
		}
		return deps
	}
	s := sharedSpec{m: 1 + rng.Intn(3), n: 3 + rng.Intn(4), seed: rng.Int63(), cancel: -1}
	s.pdeps = dag(s.m, 0.5)
	s.pok, s.pallow = make([]bool, s.m), make([]bool, s.m)
	for i := range s.pok {
		s.pok[i] = rng.Intn(3) != 0
		s.pallow[i] = rng.Intn(4) == 0
	}
	s.deps = dag(s.n, 0.35)
	s.incl, s.ok, s.allow, s.cond = make([]bool, s.n), make([]bool, s.n), make([]bool, s.n), make([]byte, s.n)
	k := 2 + rng.Intn(2)
	for _, i := range rng.Perm(s.n)[:k] {
		s.incl[i] = true
	}
	for i := 0; i < s.n; i++ {
		s.ok[i] = rng.Intn(4) != 0
		s.allow[i] = rng.Intn(3) == 0
		s.cond[i] = 'n'
		if rng.Intn(8) == 0 {
			s.cond[i] = "tf"[rng.Intn(2)]
		}
	}
	// make sure there is something behind an including stage
	hasDependant := false
	for j := 0; j < s.n; j++ {
		for _, d := range s.deps[j] {
			if s.incl[d] {
				hasDependant = true
			}
		}
	}
	if !hasDependant {
		for i := 0; i < s.n-1; i++ {
			if s.incl[i] {
				s.deps[s.n-1] = append(s.deps[s.n-1], i)
				break
			}
		}
	}
	return s
}

func sharedInclusionCase(col *Collector, focus string, s sharedSpec) {
	cs := Case{Replay: s.describe(), Tags: []string{"nested", "shared-inclusion"}, NonTrivial: true}
	mkTask := func(n string) *task.Task { t := task.NewTask(); t.Name = n; return t }
	pst := make([]*scheduler.Stage, s.m)
	for i := 0; i < s.m; i++ {
		st := &scheduler.Stage{Name: fmt.Sprintf("x%d", i), Task: mkTask(fmt.Sprintf("x%d", i)), AllowFailure: s.pallow[i]}
		for _, d := range s.pdeps[i] {
			st.DependsOn = append(st.DependsOn, fmt.Sprintf("x%d", d))
		}
		pst[i] = st
	}
	p, err := scheduler.NewExecutionGraph(pst...)
	if err != nil {
		cs.Fail, cs.Sig = err.Error(), "sched-setup"
		col.Add(cs)
		return
	}
	ost := make([]*scheduler.Stage, s.n)
	for i := 0; i < s.n; i++ {
		st := &scheduler.Stage{Name: fmt.Sprintf("o%d", i), AllowFailure: s.allow[i], Condition: condCmd(s.cond[i])}
		if s.incl[i] {
			st.Pipeline = p
		} else {
			st.Task = mkTask(st.Name)
		}
		for _, d := range s.deps[i] {
			st.DependsOn = append(st.DependsOn, fmt.Sprintf("o%d", d))
		}
		ost[i] = st
	}
	g, err := scheduler.NewExecutionGraph(ost...)
	if err != nil {
		cs.Fail, cs.Sig = err.Error(), "sched-setup"
		col.Add(cs)
		return
	}
	satisfied := func(st *scheduler.Stage) bool {
		switch st.ReadStatus() {
		case scheduler.StatusDone, scheduler.StatusSkipped:
			return true
		case scheduler.StatusError:
			return st.AllowFailure
		}
		return false
	}
	r := newCtlRunner()
	var vmu sync.Mutex
	var early []string
	r.onEnter = func(name string) {
		var why []string
		var idx int
		if strings.HasPrefix(name, "o") {
			fmt.Sscanf(name, "o%d", &idx)
			for _, d := range s.deps[idx] {
				if !satisfied(ost[d]) {
					why = append(why, fmt.Sprintf("%s entered Run while its dependency o%d had status %d", name, d, ost[d].ReadStatus()))
				}
				if ds := ost[d].ReadStatus(); s.incl[d] && (ds == scheduler.StatusDone || ds == scheduler.StatusError) {
					// an including stage that ran cannot be over before the included pipeline is
					for k, x := range pst {
						if st := x.ReadStatus(); st == scheduler.StatusWaiting || st == scheduler.StatusRunning {
							why = append(why, fmt.Sprintf("%s (after the including stage o%d) entered Run while stage x%d of the included pipeline had status %d", name, d, k, st))
						}
					}
				}
			}
		} else {
			fmt.Sscanf(name, "x%d", &idx)
			for _, d := range s.pdeps[idx] {
				if !satisfied(pst[d]) {
					why = append(why, fmt.Sprintf("%s entered Run while its dependency x%d had status %d", name, d, pst[d].ReadStatus()))
				}
			}
			some := false
			for i := 0; i < s.n; i++ {
				if s.incl[i] && ost[i].ReadStatus() == scheduler.StatusRunning {
					ready := true
					for _, d := range s.deps[i] {
						ready = ready && satisfied(ost[d])
					}
					some = some || ready
				}
			}
			if !some {
				why = append(why, fmt.Sprintf("%s of the included pipeline entered Run while no including stage was running with its dependencies finished", name))
			}
		}
		if len(why) > 0 {
			vmu.Lock()
			early = append(early, why...)
			vmu.Unlock()
		}
	}
	sd := scheduler.NewScheduler(r)
	sd.VerifSetPause(schedPause)
	done := make(chan error, 1)
	go func() { done <- sd.Schedule(g) }()
	rng := rand.New(rand.NewSource(s.seed))
	outcome := func(name string) bool {
		var idx int
		if strings.HasPrefix(name, "o") {
			fmt.Sscanf(name, "o%d", &idx)
			return s.ok[idx]
		}
		fmt.Sscanf(name, "x%d", &idx)
		return s.pok[idx]
	}
	var serr error
	returned, cancelled, releases := false, false, 0
	deadline := time.After(8 * time.Second)
loop:
	for {
		// wait until the set of tasks in flight has been stable for a while (the loops have settled), then let
		// one (sometimes all) of them finish
		prev, stable := "", 0
		for stable < 6 {
			select {
			case serr = <-done:
				returned = true
				break loop
			case <-deadline:
				break loop
			case <-time.After(schedPause * 2):
			}
			cur := strings.Join(r.inflight(), ",")
			if cur == prev {
				stable++
			} else {
				prev, stable = cur, 0
			}
		}
		in := r.inflight()
		if len(in) == 0 {
			continue
		}
		if s.cancel >= 0 && releases >= s.cancel && !cancelled {
			cancelled = true
			go sd.Cancel()
			continue
		}
		sort.Strings(in)
		if rng.Intn(4) == 0 {
			for _, name := range in {
				r.releaseTask(name, outcome(name))
			}
		} else {
			name := in[rng.Intn(len(in))]
			r.releaseTask(name, outcome(name))
		}
		releases++
	}
	if !returned {
		r.Cancel()
	}
	st := make([]int, s.n)
	runs := make([]int, s.n)
	r.mu.Lock()
	for i := 0; i < s.n; i++ {
		st[i] = int(ost[i].ReadStatus())
		runs[i] = r.entered[fmt.Sprintf("o%d", i)]
		if s.incl[i] && (st[i] == stDone || st[i] == stError) {
			runs[i] = 1
		}
	}
	pstat, pruns := make([]int, s.m), make([]int, s.m)
	for i := 0; i < s.m; i++ {
		pstat[i] = int(pst[i].ReadStatus())
		pruns[i] = r.entered[fmt.Sprintf("x%d", i)]
	}
	r.mu.Unlock()
	impl := fmt.Sprintf("final=%s/%s|err=%d|", joinInts(st, ","), joinInts(runs, ","), map[bool]int{true: 1, false: 0}[serr != nil])
	var ins []string
	for i := 0; i < s.n; i++ {
		if s.incl[i] {
			// the included pipeline is one object: what the model says about the run "inside stage i" is what
			// happened to it iff stage i was started at all
			if st[i] == stDone || st[i] == stError {
				ins = append(ins, fmt.Sprintf("in%d=%s/%s", i, joinInts(pstat, ","), joinInts(pruns, ",")))
			} else {
				z := make([]int, s.m)
				ins = append(ins, fmt.Sprintf("in%d=%s/%s", i, joinInts(z, ","), joinInts(z, ",")))
			}
		}
	}
	cs.Impl = impl + strings.Join(ins, "|")
	vmu.Lock()
	ev := append([]string{}, early...)
	vmu.Unlock()
	twice := ""
	for i := 0; i < s.m; i++ {
		if pruns[i] > 1 {
			twice = fmt.Sprintf("stage x%d of the included pipeline ran %d times", i, pruns[i])
		}
	}
	switch {
	case !returned:
		if focus == "C03" || focus == "C12" {
			cs.Fail, cs.Sig = fmt.Sprintf("Schedule did not return within 8s (cancelled=%v, in flight at the end: %v)", cancelled, r.inflight()), "c03-no-return"
		}
	case len(ev) > 0 && focus == "C01":
		cs.Fail, cs.Sig = ev[0], "c01-early-start"
	case twice != "" && focus == "C03":
		cs.Fail, cs.Sig = twice, "c03-twice"
	}
	if s.cancel < 0 && returned {
		cs.Line = s.oracleLine()
	} else {
		cs.Tags = append(cs.Tags, "cancelled")
	}
	col.Add(cs)
}

func sharedInclusionCases(col *Collector, focus, tier string, seed int64) {
	rng := rand.New(rand.NewSource(seed + 7001))
	n := 40
	if tier == "thorough" {
		n = 400
	}
	var specs []sharedSpec
	for i := 0; i < n; i++ {
		s := genSharedSpec(rng)
		if (focus == "C03" || focus == "C12") && i%3 == 0 {
			s.cancel = 1 + rng.Intn(3)
			if i%2 == 0 {
				// cancelled while the included pipeline (a chain) still has stages that were never started and
				// several including stages are inside it
				s.m, s.pdeps, s.pok, s.pallow = 3, [][]int{nil, {0}, {1}}, []bool{true, true, rng.Intn(2) == 0}, []bool{false, false, false}
				for j := 0; j < s.n; j++ {
					if s.incl[j] {
						s.deps[j], s.cond[j] = nil, 'n'
					}
				}
				s.cancel = rng.Intn(2)
			}
		}
		specs = append(specs, s)
	}
	parallel(len(specs), 8, func(i int) { sharedInclusionCase(col, focus, specs[i]) })
}
