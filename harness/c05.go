package main

import (
	"errors"
	"fmt"
	"math/rand"
	"sort"
	"strings"

	"github.com/taskctl/taskctl/pkg/scheduler"
	"github.com/taskctl/taskctl/pkg/verifhooks"
)

func init() { props["C05"] = runC05 }

type gstage struct {
	name string
	deps []string
}

func graphLine(st []gstage) string {
	parts := make([]string, len(st))
	for i, s := range st {
		parts[i] = s.name + ":" + strings.Join(s.deps, ",")
	}
	return "graph " + strings.Join(parts, ";")
}

func allNames(st []gstage) []string {
	seen := map[string]bool{}
	var names []string
	for _, s := range st {
		for _, n := range append([]string{s.name}, s.deps...) {
			if !seen[n] {
				seen[n] = true
				names = append(names, n)
			}
		}
	}
	sort.Strings(names)
	return names
}

// hasCycle: independent reference (transitive closure), not the model.
func hasCycle(st []gstage) bool {
	names := allNames(st)
	idx := map[string]int{}
	for i, n := range names {
		idx[n] = i
	}
	n := len(names)
	r := make([][]bool, n)
	for i := range r {
		r[i] = make([]bool, n)
	}
	for _, s := range st {
		for _, d := range s.deps {
			r[idx[d]][idx[s.name]] = true
		}
	}
	for k := 0; k < n; k++ {
		for i := 0; i < n; i++ {
			if r[i][k] {
				for j := 0; j < n; j++ {
					if r[k][j] {
						r[i][j] = true
					}
				}
			}
		}
	}
	for i := 0; i < n; i++ {
		if r[i][i] {
			return true
		}
	}
	return false
}

// ren maps the canonical stage names of a case (A, B, ...) to the names actually given to the stages
// (nil: the same); the observation is reported in canonical names
func observeGraph(g *scheduler.ExecutionGraph, names []string, ren map[string]string) string {
	real := func(n string) string {
		if r, ok := ren[n]; ok {
			return r
		}
		return n
	}
	back := map[string]string{}
	for c, r := range ren {
		back[r] = c
	}
	canon := func(l []string) string {
		out := make([]string, len(l))
		for i, n := range l {
			out[i] = n
			if c, ok := back[n]; ok {
				out[i] = c
			}
		}
		return strings.Join(out, ",")
	}
	var parts []string
	for _, n := range names {
		parts = append(parts, fmt.Sprintf("to %s=%s", n, canon(g.To(real(n)))))
	}
	for _, n := range names {
		parts = append(parts, fmt.Sprintf("from %s=%s", n, canon(g.From(real(n)))))
	}
	return "ok|" + strings.Join(parts, "|")
}

// expected To/From from the declaration (distinct stage names assumed by the caller)
func expectedEdges(st []gstage, names []string) string {
	to := map[string][]string{}
	from := map[string][]string{}
	for _, s := range st {
		for _, d := range s.deps {
			to[s.name] = append(to[s.name], d)
			from[d] = append(from[d], s.name)
		}
	}
	var parts []string
	for _, n := range names {
		parts = append(parts, fmt.Sprintf("to %s=%s", n, strings.Join(to[n], ",")))
	}
	for _, n := range names {
		parts = append(parts, fmt.Sprintf("from %s=%s", n, strings.Join(from[n], ",")))
	}
	return "ok|" + strings.Join(parts, "|")
}

func renamed(st []gstage, ren map[string]string) []gstage {
	if ren == nil {
		return st
	}
	r := func(n string) string {
		if x, ok := ren[n]; ok {
			return x
		}
		return n
	}
	out := make([]gstage, len(st))
	for i, s := range st {
		out[i].name = r(s.name)
		for _, d := range s.deps {
			out[i].deps = append(out[i].deps, r(d))
		}
	}
	return out
}

func c05Direct(st []gstage, ren map[string]string) (obs string, other string) {
	canonNames := allNames(st)
	st = renamed(st, ren)
	stages := make([]*scheduler.Stage, len(st))
	for i, s := range st {
		stages[i] = &scheduler.Stage{Name: s.name, DependsOn: append([]string(nil), s.deps...)}
	}
	g, err := scheduler.NewExecutionGraph(stages...)
	if err != nil {
		if errors.Is(err, scheduler.ErrCycleDetected) {
			return "err", ""
		}
		return "err", "non-cycle error: " + err.Error()
	}
	return observeGraph(g, canonNames, ren), ""
}

// c05Pipeline goes through mapstructure decoding and internal/config.buildPipeline.
// c05PipelineUnnamed: every stage is declared without a name of its own, through a task whose KEY is the stage's
// name (a stage without a name is called after the task key); the tasks carry `name:` fields that are a rotation of
// the keys, so that anything naming a stage after the task's display name builds a different graph
func c05PipelineUnnamed(st []gstage) (obs string, other string) {
	names := allNames(st)
	declared := map[string]bool{}
	for _, s := range st {
		declared[s.name] = true
	}
	tasks := map[string]interface{}{}
	for i, n := range names {
		tasks[n] = map[string]interface{}{"command": []interface{}{"true"}, "name": names[(i+1)%len(names)]}
	}
	var stages []interface{}
	for _, s := range st {
		deps := make([]interface{}, len(s.deps))
		for i, d := range s.deps {
			deps[i] = d
		}
		stages = append(stages, map[string]interface{}{"task": s.name, "depends_on": deps})
	}
	raw := map[string]interface{}{"tasks": tasks, "pipelines": map[string]interface{}{"p": stages}}
	cl := verifhooks.NewConfigLoader(verifhooks.NewConfig())
	cfg, err := cl.VerifBuildRaw(raw, "")
	if err != nil {
		if errors.Is(err, scheduler.ErrCycleDetected) {
			return "err", ""
		}
		return "err", "non-cycle error: " + err.Error()
	}
	return observeGraph(cfg.Pipelines["p"], names, nil), ""
}

func c05Pipeline(st []gstage, ren map[string]string) (obs string, other string) {
	canonNames := allNames(st)
	st = renamed(st, ren)
	var stages []interface{}
	for _, s := range st {
		deps := make([]interface{}, len(s.deps))
		for i, d := range s.deps {
			deps[i] = d
		}
		stages = append(stages, map[string]interface{}{"name": s.name, "task": "t", "depends_on": deps})
	}
	raw := map[string]interface{}{
		"tasks":     map[string]interface{}{"t": map[string]interface{}{"command": []interface{}{"true"}}},
		"pipelines": map[string]interface{}{"p": stages},
	}
	cl := verifhooks.NewConfigLoader(verifhooks.NewConfig())
	cfg, err := cl.VerifBuildRaw(raw, "")
	if err != nil {
		if errors.Is(err, scheduler.ErrCycleDetected) {
			return "err", ""
		}
		return "err", "non-cycle error: " + err.Error()
	}
	return observeGraph(cfg.Pipelines["p"], canonNames, ren), ""
}

// named stages whose tasks carry the names of OTHER stages of the same pipeline (stage "build" runs the task
// "package", stage "package" runs the task "build", ...): a name in depends_on is a stage name, never a task name
func c05PipelineCross(st []gstage) (obs string, other string) {
	names := allNames(st)
	tasks := map[string]interface{}{}
	for _, n := range names {
		tasks[n] = map[string]interface{}{"command": []interface{}{"true"}}
	}
	taskOf := map[string]string{}
	for i, n := range names {
		taskOf[n] = names[(i+1)%len(names)]
	}
	var stages []interface{}
	for _, s := range st {
		deps := make([]interface{}, len(s.deps))
		for i, d := range s.deps {
			deps[i] = d
		}
		stages = append(stages, map[string]interface{}{"name": s.name, "task": taskOf[s.name], "depends_on": deps})
	}
	raw := map[string]interface{}{"tasks": tasks, "pipelines": map[string]interface{}{"p": stages}}
	cl := verifhooks.NewConfigLoader(verifhooks.NewConfig())
	cfg, err := cl.VerifBuildRaw(raw, "")
	if err != nil {
		if errors.Is(err, scheduler.ErrCycleDetected) {
			return "err", ""
		}
		return "err", "non-cycle error: " + err.Error()
	}
	return observeGraph(cfg.Pipelines["p"], names, nil), ""
}

// every name used in a depends_on is a declared stage (the pipeline path rejects dangling names)
func allDeclared(st []gstage) bool {
	d := map[string]bool{}
	for _, s := range st {
		d[s.name] = true
	}
	for _, s := range st {
		for _, x := range s.deps {
			if !d[x] {
				return false
			}
		}
	}
	return true
}

func c05Case(c *Collector, st []gstage, via string, tag string) { c05CaseRen(c, st, via, tag, nil) }

// stage names that collide when two of them are glued with a separator ("a"+":"+"b:a" = "a:b"+":"+"a"), names
// that are prefixes of one another, names with spaces and punctuation
var oddNamePools = [][]string{
	{"a", "b", "a:b", "b:a"}, {"a", "b", "a/b", "b/a"}, {"a", "b", "a->b", "b->a"}, {"a", "b", "a,b", "b,a"}, {"a", "b", "a b", "b a"},
	{"a", "b", "a|b", "b|a"}, {"a", "b", "a.b", "b.a"}, {"a", "b", "a-b", "b-a"}, {"a", "b", "a_b", "b_a"}, {"x", "xx", "xxx", "x x"},
	{"1", "01", "1.0", "+1"}, {"deploy:eu", "smoke", "deploy", "eu:smoke"},
}

func c05CaseRen(c *Collector, st []gstage, via string, tag string, ren map[string]string) {
	var obs, other string
	if via == "pipeline-unnamed" {
		obs, other = c05PipelineUnnamed(st)
	} else if via == "pipeline-cross" {
		obs, other = c05PipelineCross(st)
	} else if via == "pipeline" {
		obs, other = c05Pipeline(st, ren)
	} else {
		obs, other = c05Direct(st, ren)
	}
	cyc := hasCycle(st)
	cs := Case{Line: graphLine(st), Impl: obs, Tags: []string{tag, "via=" + via, fmt.Sprintf("stages=%d", len(st))}}
	cs.Replay = fmt.Sprintf("%s via=%s", cs.Line, via)
	if ren != nil {
		cs.Replay += fmt.Sprintf(" with the stages named %q", ren)
		cs.Tags = append(cs.Tags, "odd-names")
	}
	if cyc {
		cs.Tags = append(cs.Tags, "cyclic")
	} else {
		cs.Tags = append(cs.Tags, "acyclic")
	}
	nEdges := 0
	for _, s := range st {
		nEdges += len(s.deps)
	}
	cs.NonTrivial = nEdges >= 2
	switch {
	case other != "":
		cs.Fail, cs.Sig = other, "c05-other-error"
	case cyc && obs != "err":
		cs.Fail, cs.Sig = "cyclic depends_on accepted", "c05-cycle-accepted"
	case !cyc && obs == "err":
		cs.Fail, cs.Sig = "acyclic pipeline rejected with cycle error", "c05-false-cycle"
	case !cyc && obs != expectedEdges(st, allNames(st)):
		cs.Fail, cs.Sig = "accepted graph does not expose exactly the declared edges", "c05-edges"
	}
	c.Add(cs)
}

func runC05(c *Collector, tier string, seed int64) {
	rng := rand.New(rand.NewSource(seed))
	names := []string{"A", "B", "C", "D"}
	perms := permutations(4)
	c.res.Rule = "every digraph on 4 labelled stages (2^16 edge sets, self-loops included) x declaration orders " +
		"(quick: identity + 2 seeded orders; thorough: all 24), dependency lists in seeded order; digraphs on 1..3 stages exhaustively; " +
		"random graphs up to 10 stages (deps may name undeclared stages on the direct path); each through NewExecutionGraph and a share through buildPipeline. " +
		"non-trivial = at least 2 edges; distinct = distinct (declaration, path) pairs"
	// exhaustive small sizes 1..3
	for n := 1; n <= 3; n++ {
		for mask := 0; mask < 1<<(uint(n*n)); mask++ {
			for _, p := range permutations(n) {
				st := stagesFromMask(names[:n], n, mask, p, nil)
				c05Case(c, st, "direct", "exh<=3")
				c05Case(c, st, "pipeline", "exh<=3")
				if n >= 2 && allDeclared(st) {
					c05Case(c, st, "pipeline-unnamed", "exh<=3")
					c05Case(c, st, "pipeline-cross", "exh<=3")
				}
			}
		}
	}
	// the small digraphs again, exhaustively, with the stage names of every pool (sparse graphs: a cycle or an edge
	// lost to a name collision is not hidden behind another cycle)
	oddSmall := append([][]string{{"a", "aa", "aaa", "aaaa"}, {"a", "ab", "bc", "c"}, {"ab", "c", "a", "bc"}, {"", "a", "aa", " "}}, oddNamePools...)
	for n := 2; n <= 3; n++ {
		for mask := 0; mask < 1<<(uint(n*n)); mask++ {
			for pi, p := range permutations(n) {
				for qi, pool := range oddSmall {
					if pool[0] == "" && n == 3 {
						continue
					}
					for off := 0; off+n <= 4; off++ {
						if tier != "thorough" && (mask+pi+qi+off)%3 != int(seed%3+3)%3 {
							continue
						}
						ren := map[string]string{}
						for i := 0; i < n; i++ {
							ren[names[i]] = pool[off+i]
						}
						via := "direct"
						if (mask+qi)%4 == 0 && pool[0] != "" {
							via = "pipeline"
						}
						c05CaseRen(c, stagesFromMask(names[:n], n, mask, p, nil), via, "exh<=3-odd-names", ren)
					}
				}
			}
		}
	}
	work := make([][]gstage, 0, 1<<18)
	vias := make([]string, 0, 1<<18)
	for mask := 0; mask < 1<<16; mask++ {
		var ps [][]int
		if tier == "thorough" {
			ps = perms
		} else {
			ps = [][]int{perms[0], perms[rng.Intn(24)], perms[rng.Intn(24)]}
		}
		for k, p := range ps {
			st := stagesFromMask(names, 4, mask, p, rng)
			work = append(work, st)
			if k == 2 && mask%16 == int(seed%16+16)%16 && allDeclared(st) {
				vias = append(vias, "pipeline-cross")
			} else if k == 1 && mask%16 == int(seed%16+16)%16 {
				vias = append(vias, "pipeline-unnamed")
			} else if k == 0 && (tier == "thorough" || mask%4 == int(seed%4+4)%4) {
				vias = append(vias, "pipeline")
			} else {
				vias = append(vias, "direct")
			}
		}
	}
	parallel(len(work), 16, func(i int) { c05Case(c, work[i], vias[i], "exh4") })
	// the same digraphs (a sample in the quick tier) with stage names from the pools above
	type rj struct {
		st  []gstage
		via string
		ren map[string]string
	}
	var rjobs []rj
	for mask := 0; mask < 1<<16; mask++ {
		if tier != "thorough" && mask%11 != int(seed%11+11)%11 {
			continue
		}
		pool := oddNamePools[mask%len(oddNamePools)]
		ren := map[string]string{"A": pool[0], "B": pool[1], "C": pool[2], "D": pool[3]}
		via := "direct"
		if mask%3 == 0 {
			via = "pipeline"
		}
		rjobs = append(rjobs, rj{stagesFromMask(names, 4, mask, perms[rng.Intn(24)], rng), via, ren})
	}
	parallel(len(rjobs), 16, func(i int) { c05CaseRen(c, rjobs[i].st, rjobs[i].via, "exh4-odd-names", rjobs[i].ren) })
	// a chain of L stages below an entry stage, ending in a stage with two dependants one of which also depends on the
	// other (and, in a second shape, on something below it): acyclic, 5..11 stages, in several declaration orders - the
	// top of the chain declared last, first, in the middle; cyclic variants of the same (the last stage feeding back)
	for L := 1; L <= 7; L++ {
		for shape := 0; shape < 3; shape++ {
			var st []gstage
			st = append(st, gstage{"root", nil}, gstage{"entry", []string{"root"}})
			prev := "entry"
			for k := 1; k <= L; k++ {
				n := fmt.Sprintf("a%d", k)
				st = append(st, gstage{n, []string{prev}})
				prev = n
			}
			st = append(st, gstage{"x", []string{prev}})
			switch shape {
			case 0:
				st = append(st, gstage{"y", []string{prev, "x"}})
			case 1:
				st = append(st, gstage{"x2", []string{"x"}}, gstage{"y", []string{prev, "x2"}})
			case 2: // a real cycle through the bottom of the chain
				st = append(st, gstage{"y", []string{prev, "x"}})
				st[2].deps = append(st[2].deps, "y")
			}
			n := len(st)
			orders := [][]int{nil, nil, nil, nil}
			for i := 0; i < n; i++ {
				orders[0] = append(orders[0], i)     // as written: top first
				orders[1] = append(orders[1], n-1-i) // bottom first
			}
			// the chain and what hangs below it first, root and entry last / entry last only
			for i := 2; i < n; i++ {
				orders[2] = append(orders[2], i)
				orders[3] = append(orders[3], i)
			}
			orders[2] = append(orders[2], 0, 1)
			orders[3] = append([]int{0}, append(orders[3], 1)...)
			for oi, ord := range orders {
				perm := make([]gstage, n)
				for i, j := range ord {
					perm[i] = st[j]
				}
				via := []string{"direct", "pipeline"}[(L+shape+oi)%2]
				c05Case(c, perm, via, "deep-fan-out")
			}
		}
	}
	// random larger graphs
	nr := 3000
	if tier == "thorough" {
		nr = 60000
	}
	rwork := make([][]gstage, nr)
	for i := range rwork {
		n := 5 + rng.Intn(6)
		dens := []float64{0.05, 0.1, 0.15, 0.25}[rng.Intn(4)]
		undeclared := i%2 == 0 && rng.Intn(3) == 0
		rwork[i] = randomStages(rng, n, dens, undeclared)
	}
	parallel(nr, 16, func(i int) {
		via := "direct"
		if i%2 == 1 {
			via = "pipeline"
		}
		c05Case(c, rwork[i], via, "random")
	})
	c.res.Exhaustive = true
}

func stagesFromMask(names []string, n, mask int, perm []int, rng *rand.Rand) []gstage {
	st := make([]gstage, n)
	for k, i := range perm {
		s := gstage{name: names[i]}
		for j := 0; j < n; j++ {
			// bit (i*n+j): stage i depends on j
			if mask&(1<<uint(i*n+j)) != 0 {
				s.deps = append(s.deps, names[j])
			}
		}
		if rng != nil && len(s.deps) > 1 {
			rng.Shuffle(len(s.deps), func(a, b int) { s.deps[a], s.deps[b] = s.deps[b], s.deps[a] })
		}
		if rng != nil && len(s.deps) > 0 && rng.Intn(5) == 0 {
			s.deps = withRepeat(rng, s.deps)
		}
		st[k] = s
	}
	return st
}

func randomStages(rng *rand.Rand, n int, dens float64, undeclared bool) []gstage {
	names := make([]string, n)
	for i := range names {
		names[i] = fmt.Sprintf("s%d", i)
	}
	order := rng.Perm(n)
	// mostly acyclic: edges go from lower rank to higher rank, with a few back edges
	rank := rng.Perm(n)
	back := rng.Intn(3) == 0
	st := make([]gstage, n)
	for k, i := range order {
		s := gstage{name: names[i]}
		for j := 0; j < n; j++ {
			if rng.Float64() < dens {
				if rank[j] < rank[i] || (back && rng.Intn(6) == 0) {
					s.deps = append(s.deps, names[j])
				}
			}
		}
		if undeclared && rng.Intn(4) == 0 {
			s.deps = append(s.deps, "ghost")
		}
		if len(s.deps) > 0 && rng.Intn(4) == 0 {
			s.deps = withRepeat(rng, s.deps)
		}
		st[k] = s
	}
	return st
}

// the same dependency list with one entry listed a second time, at a random position (a dependency named twice is
// still that dependency; the entries after the repetition are dependencies like any other)
func withRepeat(rng *rand.Rand, deps []string) []string {
	d := deps[rng.Intn(len(deps))]
	at := rng.Intn(len(deps) + 1)
	out := append([]string{}, deps[:at]...)
	out = append(out, d)
	return append(out, deps[at:]...)
}

func permutations(n int) [][]int {
	var res [][]int
	var rec func(cur []int, used []bool)
	rec = func(cur []int, used []bool) {
		if len(cur) == n {
			res = append(res, append([]int(nil), cur...))
			return
		}
		for i := 0; i < n; i++ {
			if !used[i] {
				used[i] = true
				rec(append(cur, i), used)
				used[i] = false
			}
		}
	}
	rec(nil, make([]bool, n))
	return res
}
