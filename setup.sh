#!/bin/sh
# Build the framework offline from files on disk: Lean library + oracle executable, Go harness.
set -e
cd "$(dirname "$0")"
export GOFLAGS=-mod=mod GOPROXY=off GOSUMDB=off GOTOOLCHAIN=local CGO_ENABLED=0
mkdir -p .build evidence replays
(cd lean && lake build TaskctlVerif oracle)
cp /repo/go.sum harness/go.sum
(cd harness && go build -tags verif -o ../.build/harness .)
(cd /repo && go build -o /verif/.build/taskctl ./cmd/taskctl)
echo setup done
