#!/usr/bin/env python3
"""Regenerates MANIFEST.json from props_meta.json (claimed properties) and the not_applicable table."""
import json, os
V = os.path.dirname(os.path.abspath(__file__))
meta = json.load(open(os.path.join(V, "props_meta.json")))
na = json.load(open(os.path.join(V, "not_applicable.json")))
allp = [json.loads(l)["id"] for l in open(os.path.join(V, "properties.jsonl"))]
checks = []
for pid in allp:
    if pid not in meta:
        continue
    m = meta[pid]
    checks.append({
        "property_id": pid,
        "quick_cmd": "./check %s quick" % pid,
        "thorough_cmd": "./check %s thorough" % pid,
        "evidence_file": "/verif/evidence/%s.json" % pid,
        "replay_cmd_template": "cat {path}",
        "engine": "lean-proof+correspondence",
        "level_claimed": {"category": "proof", "text": m["level_text"], "design_ref": m.get("design_ref", "DESIGN.md section 5 " + pid)},
        "level_note": m["level_note"],
        "technique": m.get("technique", "Lean 4 theorems about an executable model (kernel-checked, axioms audited) + differential correspondence of the model's compiled definitions against the implementation built from /repo's working tree"),
    })
claimed = set(c["property_id"] for c in checks)
man = {
    "version": 1,
    "setup_cmd": "./setup.sh",
    "hooks": {
        "guard": "verif",
        "enable": "go build -tags verif (harness module /verif/harness with replace github.com/taskctl/taskctl => /repo)",
        "baseline_off_cmd": "cd /repo && go build ./... && go test -vet=off -count=1 -timeout 25m ./...",
        "source_commits": json.load(open(os.path.join(V, "hook_commits.json"))),
        "add_only": True,
    },
    "engines": [{
        "name": "lean-proof+correspondence", "path": "/verif/check",
        "serves_properties": sorted(claimed),
        "kind_free_text": "Lean 4 machine-checked theorems over hand-written executable models (lean/), tied to the code by a Go differential harness (harness/) that runs the real packages and the compiled Lean oracle on the same generated cases, plus property monitors on the implementation observations",
    }],
    "checks": checks,
    "notes": "See DESIGN.md. Known findings: known_findings.json. All checks: ./check <ID> quick|thorough.",
    "not_applicable": [{"property_id": p, "reason": na.get(p, "check not built yet in this session (work in progress; see DESIGN.md section 5)")}
                       for p in allp if p not in claimed],
}
json.dump(man, open(os.path.join(V, "MANIFEST.json"), "w"), indent=1)
print("claimed:", sorted(claimed))
